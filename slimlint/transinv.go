package main

// C17.shift-invariant — translation invariance of the builder's decisions.
//
// Prepending a common prefix of whole bytes to every key shifts every key bit
// position below the root by the same Δ (a multiple of 8) and changes nothing
// else: the significant-bit index answers with positions shifted by Δ, counts
// and labels stay. The trie's shape — and therefore its size — is unchanged
// exactly when no decision of the construction looks at an absolute position.
// A position may be used modulo its alignment (pos&7, pos&3), in a difference
// with another position (step lengths) and compared with another position; it
// may not be compared with a constant, directly or scaled ("depth := pos>>3;
// if depth < 4").
//
// Abstract domain over the integer SSA values of the construction function and
// the trie functions it hands positions to (parameters bound at call sites):
//
//	inv   does not move with the keys        pos   moves by Δ
//	bad   moves, but not by Δ (scaled, negated, doubled position)
//	unk   anything else (never reported)
//
// Sources of pos: result #0 of the significant-bit index's CountPrefixes (the
// first bit at which the keys of a range differ) and loads of work-list record
// fields that are stored a pos value. Reported: a comparison of a pos or bad
// value with a non-zero constant (== 0 identifies the root, which stays the
// root).

import (
	"fmt"
	"go/token"
	"go/types"
	"sort"
	"strings"

	"golang.org/x/tools/go/ssa"
)

type shiftClass int

const (
	scUnk shiftClass = iota
	scInv
	scPos
	scBad
)

func (c shiftClass) String() string { return [...]string{"unk", "inv", "pos", "bad"}[c] }

func joinShift(a, b shiftClass) shiftClass {
	switch {
	case a == b:
		return a
	case a == scBad || b == scBad:
		return scBad
	case a == scUnk || b == scUnk:
		return scUnk
	}
	return scPos // inv ⊔ pos: may move
}

type shiftAnalysis struct {
	p      *Program
	cls    map[ssa.Value]shiftClass
	fields map[*types.Var]shiftClass // fields of records stored a classified value
	params map[*ssa.Parameter]shiftClass
	funcs  map[*ssa.Function]bool
	change bool
	// step: the value is a difference of two positions (a branch-free run length in bits), possibly
	// scaled down by the recorded right shift
	step map[ssa.Value]int
}

func (a *shiftAnalysis) get(v ssa.Value) shiftClass {
	switch x := v.(type) {
	case *ssa.Const:
		if isIntType(x.Type()) {
			return scInv
		}
		return scUnk
	case *ssa.Parameter:
		return a.params[x]
	}
	return a.cls[v]
}

func (a *shiftAnalysis) set(v ssa.Value, c shiftClass) {
	if a.cls[v] != c {
		// monotone: unk < inv < pos < bad ; never go down
		if c > a.cls[v] || a.cls[v] == scUnk {
			a.cls[v] = c
			a.change = true
		}
	}
}

// retClass: the class of result idx of a trie helper that was handed positions (join over its returns).
func (a *shiftAnalysis) retClass(g *ssa.Function, idx int) shiftClass {
	acc := shiftClass(-1)
	for _, ret := range returnsOf(g) {
		if idx >= len(ret.Results) {
			continue
		}
		c := a.get(ret.Results[idx])
		if c == scUnk {
			continue
		}
		if acc == -1 {
			acc = c
		} else {
			acc = joinShift(acc, c)
		}
	}
	if acc == -1 {
		return scUnk
	}
	return acc
}

func smallAlignMask(v ssa.Value) (int64, bool) {
	k, ok := constInt(v)
	return k, ok
}

func (a *shiftAnalysis) transfer(in ssa.Instruction) {
	switch x := in.(type) {
	case *ssa.Extract:
		if c, ok := x.Tuple.(*ssa.Call); ok {
			if g := calleeOf(c); g != nil && strings.HasSuffix(funcID(g), ".CountPrefixes") {
				if x.Index == 0 {
					a.set(x, scPos)
				}
				return
			}
			if g := calleeOf(c); g != nil && a.funcs[g] && isIntType(x.Type()) {
				if cl := a.retClass(g, x.Index); cl != scUnk {
					a.set(x, cl)
				}
			}
		}
	case *ssa.Call:
		if !isIntType(x.Type()) {
			return
		}
		if g := calleeOf(x); g != nil && strings.HasSuffix(funcID(g), "bmtree.PathLen") {
			a.set(x, scInv)
		} else if g != nil && a.funcs[g] {
			if cl := a.retClass(g, 0); cl != scUnk {
				a.set(x, cl)
			}
		}
	case *ssa.Convert:
		if isIntType(x.Type()) && isIntType(x.X.Type()) {
			if c := a.get(x.X); c != scUnk {
				a.set(x, c)
			}
			if sh, ok := a.step[x.X]; ok {
				if _, done := a.step[x]; !done {
					a.step[x] = sh
					a.change = true
				}
			}
		}
	case *ssa.Phi:
		if !isIntType(x.Type()) {
			return
		}
		acc := shiftClass(-1)
		for _, ed := range x.Edges {
			c := a.get(ed)
			if c == scUnk {
				continue // optimistic: unknown edges are ignored, classes only ever rise in the fixpoint
			}
			if acc == -1 {
				acc = c
			} else {
				acc = joinShift(acc, c)
			}
		}
		if acc > scUnk {
			a.set(x, acc)
		}
	case *ssa.UnOp:
		if x.Op == token.MUL && isIntType(x.Type()) {
			if _, fv, fa := fieldOfAddr(x.X); fa != nil {
				if c, ok := a.fields[fv]; ok {
					a.set(x, c)
				}
			}
		}
		if x.Op == token.SUB {
			switch a.get(x.X) {
			case scInv:
				a.set(x, scInv)
			case scPos, scBad:
				a.set(x, scBad)
			}
		}
	case *ssa.Field:
		if isIntType(x.Type()) {
			if st, ok := x.X.Type().Underlying().(*types.Struct); ok {
				if c, ok := a.fields[st.Field(x.Field)]; ok {
					a.set(x, c)
				}
			}
		}
	case *ssa.Store:
		if _, fv, fa := fieldOfAddr(x.Addr); fa != nil && isIntType(x.Val.Type()) {
			if c := a.get(x.Val); c == scPos || c == scBad {
				if a.fields[fv] < c {
					a.fields[fv] = c
					a.change = true
				}
			}
		}
	case *ssa.BinOp:
		if !isIntType(x.Type()) {
			return
		}
		l, r := a.get(x.X), a.get(x.Y)
		if x.Op == token.SUB && (l == scPos || l == scBad) {
			// x - x&m: x rounded down to a word boundary (alignment by a mask that is not a constant here)
			if an, ok := x.Y.(*ssa.BinOp); ok && an.Op == token.AND && (an.X == x.X || an.Y == x.X) {
				a.set(x, l)
				return
			}
		}
		if x.Op == token.SHL || x.Op == token.MUL {
			// (x >> k) << k, (x / 2^k) * 2^k with k <= 3: x rounded down to a boundary inside the byte —
			// the same alignment as x &^ (2^k - 1)
			if inner, ok := x.X.(*ssa.BinOp); ok {
				k1, ok1 := constInt(x.Y)
				k2, ok2 := constInt(inner.Y)
				if ok1 && ok2 && k1 == k2 && ((x.Op == token.SHL && inner.Op == token.SHR && k1 >= 1 && k1 <= 3) || (x.Op == token.MUL && inner.Op == token.QUO && (k1 == 2 || k1 == 4 || k1 == 8))) {
					if c := a.get(inner.X); c != scUnk {
						a.set(x, c)
						return
					}
				}
			}
		}
		if l == scUnk || r == scUnk {
			return
		}
		var out shiftClass
		switch x.Op {
		case token.ADD:
			switch {
			case l == scInv && r == scInv:
				out = scInv
			case (l == scPos && r == scInv) || (l == scInv && r == scPos):
				out = scPos
			default:
				out = scBad
			}
		case token.SUB:
			switch {
			case l == scInv && r == scInv:
				out = scInv
			case l == scPos && r == scPos:
				out = scInv
				if a.step != nil {
					if _, ok := a.step[x]; !ok {
						a.step[x] = 0
						a.change = true
					}
				}
			case l == scPos && r == scInv:
				out = scPos
			default:
				out = scBad
			}
		case token.AND:
			k, isK := smallAlignMask(x.Y)
			if !isK {
				k, isK = smallAlignMask(x.X)
			}
			switch {
			case l == scInv && r == scInv:
				out = scInv
			case isK && (k == 7 || k == 3):
				out = scInv // alignment inside the byte: unchanged by a shift of whole bytes
			case isK && (k == ^int64(7) || k == ^int64(3) || k == int64(int32(^7)) || k == int64(int32(^3))):
				out = l
				if l == scInv {
					out = r
				}
			default:
				out = scBad
			}
		case token.AND_NOT:
			if k, ok := constInt(x.Y); ok && (k == 7 || k == 3) {
				out = l
			} else if l == scInv && r == scInv {
				out = scInv
			} else {
				out = scBad
			}
		default:
			if l == scInv && r == scInv {
				out = scInv
				if sh, ok := a.step[x.X]; ok && a.step != nil {
					if k, isK := constInt(x.Y); isK && k > 0 {
						add := -1
						switch x.Op {
						case token.SHR:
							add = int(k)
						case token.QUO:
							if k&(k-1) == 0 {
								add = bitLen(k) - 1
							}
						}
						if add >= 0 {
							if _, done := a.step[x]; !done {
								a.step[x] = sh + add
								a.change = true
							}
						}
					}
				}
			} else {
				out = scBad // scaled, shifted, divided position
			}
		}
		a.set(x, out)
	}
}

func solveShift(p *Program, F *ssa.Function) *shiftAnalysis {
	a := &shiftAnalysis{p: p, cls: map[ssa.Value]shiftClass{}, fields: map[*types.Var]shiftClass{}, params: map[*ssa.Parameter]shiftClass{}, funcs: map[*ssa.Function]bool{F: true}, step: map[ssa.Value]int{}}
	// composite literals of the work-list record: stores into fields of fresh records are Stores on FieldAddr — covered
	for iter := 0; iter < 40; iter++ {
		a.change = false
		var fs []*ssa.Function
		for f := range a.funcs {
			fs = append(fs, f)
		}
		sort.Slice(fs, func(i, j int) bool { return funcID(fs[i]) < funcID(fs[j]) })
		for _, f := range fs {
			instrsOf(f, func(_ *ssa.BasicBlock, in ssa.Instruction) {
				a.transfer(in)
				// positions handed to trie functions
				if c, ok := in.(ssa.CallInstruction); ok {
					g := calleeOf(c)
					if g == nil || !trieScope(g) || len(g.Blocks) == 0 {
						return
					}
					args := c.Common().Args
					for i, prm := range g.Params {
						if i >= len(args) || !isIntType(prm.Type()) {
							continue
						}
						cl := a.get(args[i])
						if cl == scPos || cl == scBad {
							if !a.funcs[g] {
								a.funcs[g] = true
								a.change = true
							}
							if a.params[prm] < cl {
								a.params[prm] = cl
								a.change = true
							}
						}
					}
				}
			})
		}
		if !a.change {
			break
		}
	}
	return a
}

func checkShiftInvariant(p *Program, r *Report) {
	r.Rule("C17.shift-invariant", "dataflow", "no construction decision compares an absolute key bit position with a constant", 1)
	entry := p.Trie.Func("NewSlimTrie")
	F := findBuilder(p, entry)
	if F == nil {
		r.Unk("construction decisions", "", "construction function not found")
		return
	}
	a := solveShift(p, F)
	if debugFlow {
		for f := range a.funcs {
			instrsOf(f, func(_ *ssa.BasicBlock, in ssa.Instruction) {
				if v, ok := in.(ssa.Value); ok && isIntType(v.Type()) {
					fmt.Printf("SHIFT %s %s = %s : %s\n", shortFn(f), v.Name(), v.String(), a.get(v))
				}
			})
		}
		for fv, c := range a.fields {
			fmt.Printf("SHIFT field %s : %s\n", fv.Name(), c)
		}
	}
	nPos := 0
	for _, c := range a.cls {
		if c == scPos {
			nPos++
		}
	}
	if nPos == 0 {
		r.Unk("construction decisions", p.Pos(F.Pos()), "no key bit position found in the construction function (anchor: result #0 of the significant-bit index's CountPrefixes)")
		return
	}
	var fs []*ssa.Function
	for f := range a.funcs {
		fs = append(fs, f)
	}
	sort.Slice(fs, func(i, j int) bool { return funcID(fs[i]) < funcID(fs[j]) })
	total := 0
	for _, f := range fs {
		r.Func(shortFn(f))
		var bad []string
		n := 0
		instrsOf(f, func(_ *ssa.BasicBlock, in ssa.Instruction) {
			bo, ok := in.(*ssa.BinOp)
			if !ok {
				return
			}
			switch bo.Op {
			case token.EQL, token.NEQ, token.LSS, token.LEQ, token.GTR, token.GEQ:
			default:
				return
			}
			if !isIntType(bo.X.Type()) {
				return
			}
			l, rr := a.get(bo.X), a.get(bo.Y)
			if l != scPos && l != scBad && rr != scPos && rr != scBad {
				return
			}
			n++
			for _, pr := range [][2]ssa.Value{{bo.X, bo.Y}, {bo.Y, bo.X}} {
				c := a.get(pr[0])
				k, isK := constInt(pr[1])
				if (c == scPos || c == scBad) && isK && k != 0 {
					what := "an absolute key bit position"
					if c == scBad {
						what = "a quantity scaled from an absolute key bit position"
					}
					bad = append(bad, fmt.Sprintf("%s compares %s with the constant %d: prepending a common prefix to every key flips the decision", p.Pos(bo.Pos()), what, k))
				}
			}
		})
		total += n
		if n == 0 {
			continue
		}
		r.Check(len(bad) == 0, "decisions on key bit positions in "+shortFn(f), p.Pos(f.Pos()), fmt.Sprintf("%d comparison(s): position against position, differences or alignment only", n), strings.Join(dedupStrings(bad), "; "))
	}
	r.Note("C17.shift-invariant: %d position-valued SSA values in %d function(s), %d comparison(s) involving positions", nPos, len(fs), total)
	if total == 0 {
		r.OK("construction decisions", p.Pos(F.Pos()), "no comparison has an operand classified as a key bit position (positions are consumed by helpers or differences only)")
	}
}

// checkRejectReasons (C08.accept): "every strictly ascending list within the
// documented limits is accepted" — the reasons for which the construction
// returns an error form a closed set. Every return of a possibly non-nil
// error in the functions under NewSlimTrie is (a) the order violation
// (derived from ErrKeyOutOfOrder; C08.order decides its condition), (b) an
// error handed up from a trie function under the same rule, or (c) controlled
// by a comparison of a branch-free run length — the difference of two key bit
// positions of one node, possibly scaled down — with a constant that rejects
// only runs the 16-bit step (in units of 4 bits) cannot hold: (k+1)<<scale >=
// 2^18 bits. Anything else rejects input the documentation admits.
func checkRejectReasonsAs(p *Program, r *Report, rule string) {
	r.Rule(rule, "dataflow+CFG", "construction fails only for disorder or a run the 16-bit step cannot hold", 2)
	entry := p.Trie.Func("NewSlimTrie")
	F := findBuilder(p, entry)
	if entry == nil || F == nil {
		r.Unk("error returns of the construction", "", "construction function not found")
		return
	}
	a := solveShift(p, F)
	reach := trieReach(entry)
	var fs []*ssa.Function
	for f := range reach {
		if !trieScope(f) || f.Synthetic != "" || len(f.Blocks) == 0 {
			continue
		}
		rs := f.Signature.Results()
		if rs.Len() == 0 || !isErrorType(rs.At(rs.Len()-1).Type()) {
			continue
		}
		fs = append(fs, f)
	}
	sort.Slice(fs, func(i, j int) bool { return funcID(fs[i]) < funcID(fs[j]) })
	inScope := map[*ssa.Function]bool{}
	for _, f := range fs {
		inScope[f] = true
	}
	n := 0
	for _, f := range fs {
		r.Func(shortFn(f))
		for _, ret := range returnsOf(f) {
			ev := ret.Results[len(ret.Results)-1]
			if isNilConst(ev) {
				continue
			}
			n++
			construct := fmt.Sprintf("error return #%d of %s", n, shortFn(f))
			pos := p.Pos(ret.Pos())
			if derivedFromGlobal(ev, "ErrKeyOutOfOrder", 0) {
				r.OK(construct, pos, "order violation (condition decided by C08.order)")
				continue
			}
			// handed up from a trie function under this rule
			up := false
			for v := range phiClosure(ev) {
				if ex, ok := v.(*ssa.Extract); ok {
					if c, ok := ex.Tuple.(*ssa.Call); ok && inScope[calleeOf(c)] {
						up = true
					}
				}
				if c, ok := v.(*ssa.Call); ok && inScope[calleeOf(c)] {
					up = true
				}
			}
			if up {
				r.OK(construct, pos, "handed up from a construction helper")
				continue
			}
			// the controlling comparison
			type cmpT struct {
				Op   token.Token
				X, Y ssa.Value
				pos  token.Pos
			}
			var ctl *cmpT
			onTrue := false
			for d := ret.Block(); d != nil && ctl == nil; d = d.Idom() {
				id := d.Idom()
				if id == nil {
					break
				}
				iff, ok := lastInstr(id).(*ssa.If)
				if !ok {
					continue
				}
				if op, cx, cy, cpos, ok := cmpOf(iff.Cond); ok && len(d.Preds) == 1 && (id.Succs[0] == d || id.Succs[1] == d) {
					ctl, onTrue = &cmpT{op, cx, cy, cpos}, id.Succs[0] == d
				} else if call, isCall := iff.Cond.(*ssa.Call); isCall && len(d.Preds) == 1 && (id.Succs[0] == d || id.Succs[1] == d) {
					// the refusal is decided by a helper that answers with a boolean: the comparison that
					// controls the helper's returns of the refusing value
					if op, cx, cy, cpos, onT, ok := boolResultCmp(p, call, id.Succs[0] == d, 0); ok {
						ctl, onTrue = &cmpT{op, cx, cy, cpos}, onT
					} else {
						break
					}
				} else {
					break
				}
			}
			why := "the return is not controlled by a comparison"
			ok := false
			if ctl != nil {
				why = "the controlling comparison at " + p.Pos(ctl.pos) + " is not a test of a branch-free run length (difference of two key bit positions of a node) against a constant"
				for _, pr := range [][2]ssa.Value{{ctl.X, ctl.Y}, {ctl.Y, ctl.X}} {
					sh, isStep := a.step[pr[0]]
					k, isK := constInt(pr[1])
					if !isStep || !isK {
						continue
					}
					op := ctl.Op
					if pr[0] == ctl.Y {
						switch op {
						case token.LSS:
							op = token.GTR
						case token.LEQ:
							op = token.GEQ
						case token.GTR:
							op = token.LSS
						case token.GEQ:
							op = token.LEQ
						}
					}
					if !onTrue {
						switch op {
						case token.LSS:
							op = token.GEQ
						case token.LEQ:
							op = token.GTR
						case token.GTR:
							op = token.LEQ
						case token.GEQ:
							op = token.LSS
						}
					}
					// rejected region: step > k or step >= k
					lowest := int64(-1)
					switch op {
					case token.GTR:
						lowest = k + 1
					case token.GEQ:
						lowest = k
					}
					if lowest < 0 {
						why = "the comparison at " + p.Pos(ctl.pos) + " rejects short runs"
						continue
					}
					if lowest<<uint(sh) >= 1<<18 {
						ok = true
					} else {
						why = fmt.Sprintf("the comparison at %s rejects runs of %d bits and more, which a 16-bit step in units of 4 bits can hold (limit 2^18 bits)", p.Pos(ctl.pos), lowest<<uint(sh))
					}
				}
			}
			r.Check(ok, construct, pos, "rejects only a branch-free run beyond the 16-bit step", why+": input within the documented limits is refused")
		}
	}
	if n == 0 {
		r.Unk("error returns of the construction", p.Pos(F.Pos()), "no error return found under NewSlimTrie")
	}
}

// boolResultCmp: call is a call of a loop-free boolean function of package trie all of whose returns are
// constants; exactly one return has the value want, and it is controlled by a comparison — written in
// the function, in a single-block helper, or in a helper that answers at once under an option (which
// only removes refusals). Returns that comparison (operands are values of the callee) and whether the
// return lies on its true edge.
func boolResultCmp(p *Program, call *ssa.Call, want bool, depth int) (token.Token, ssa.Value, ssa.Value, token.Pos, bool, bool) {
	fail := func() (token.Token, ssa.Value, ssa.Value, token.Pos, bool, bool) {
		return 0, nil, nil, token.NoPos, false, false
	}
	h := calleeOf(call)
	if h == nil || depth > 2 || !trieScope(h) || len(h.Blocks) == 0 || call.Call.IsInvoke() {
		return fail()
	}
	var target *ssa.Return
	for _, ret := range returnsOf(h) {
		if len(ret.Results) != 1 {
			return fail()
		}
		cv, isC := constBool(ret.Results[0])
		if !isC {
			return fail()
		}
		if cv == want {
			if target != nil {
				return fail()
			}
			target = ret
		}
	}
	if target == nil {
		return fail()
	}
	for d := target.Block(); d != nil; d = d.Idom() {
		id := d.Idom()
		if id == nil {
			break
		}
		iff, ok := lastInstr(id).(*ssa.If)
		if !ok {
			continue
		}
		if len(d.Preds) != 1 || (id.Succs[0] != d && id.Succs[1] != d) {
			return fail()
		}
		onT := id.Succs[0] == d
		if op, cx, cy, cpos, ok := cmpOf(iff.Cond); ok {
			return op, cx, cy, cpos, onT, true
		}
		if op, cx, cy, cpos, _, optVal, ok := optBypassCmp(sharedBuilderFlow(p), iff.Cond); ok {
			// under the option the helper answers optVal; the refusal is on the edge for !optVal or the
			// option only adds refusals — accept only the first
			if optVal != onT {
				// the return is reached when the helper's result is onT; the comparison decides that
				// result when the option is false
				return op, cx, cy, cpos, onT, true
			}
			return fail()
		}
		if c2, ok := iff.Cond.(*ssa.Call); ok {
			return boolResultCmp(p, c2, onT, depth+1)
		}
		return fail()
	}
	return fail()
}
