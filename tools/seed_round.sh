#!/bin/bash
# seed_round.sh <prop> <suffix> <variants...>  e.g. seed_round.sh C07 r2 c d
# confirms the variants under /tmp/seedwork/<prop><suffix>/<v> and runs all claimed checks on them
prop=$1; suf=$2; shift 2
for v in "$@"; do
  src=/tmp/seedwork/${prop}${suf}/$v
  pkg=trie
  grep -q '^package index' $src/zz_seed_demo_test.go && pkg=index
  grep -q '^package array' $src/zz_seed_demo_test.go && pkg=array
  grep -q '^package encode' $src/zz_seed_demo_test.go && pkg=encode
  race=""; grep -qi 'race' $src/NOTES.md 2>/dev/null && [ "$prop" = C11 ] && race=race
  /verif/tools/confirm_seed.sh $src ${prop}_$v $prop $pkg $race | tail -1
done
