#!/bin/bash
# confirm_seed.sh <seedwork-dir> <seed-id> <property> <demo-package-dir> [race]
#
# Confirms a seeded change produced by a sub-agent, in a scratch worktree of
# /repo (outside /repo and /verif), and files it under /verif/seeded/<seed-id>/:
#   1. the patch applies to /repo HEAD and the tree still builds,
#   2. the unedited existing suite passes with the patch,
#   3. the demonstration FAILS with the patch and PASSES without it.
# Writes confirm.log next to the patch and prints one summary line.
set -u
export GOFLAGS=-mod=mod GOPROXY=off GOSUMDB=off GOTOOLCHAIN=local GOWORK=off
src=$(readlink -f "$1"); id=$2; prop=$3; pkg=${4:-trie}; race=${5:-}
VERIF=/verif
out=$VERIF/seeded/$id
mkdir -p "$out"
cp "$src/patch.diff" "$out/patch.diff"
cp "$src"/zz_seed_demo_test.go "$out/zz_seed_demo_test.go"
[ -f "$src/NOTES.md" ] && cp "$src/NOTES.md" "$out/NOTES.md"
wt=$(mktemp -d /tmp/seedconfirm-XXXXXX)
rmdir "$wt"
git -C /repo worktree add --detach "$wt" HEAD -q || { echo "$id: cannot create worktree"; exit 2; }
trap 'git -C /repo worktree remove --force "$wt" >/dev/null 2>&1; rm -rf "$wt"' EXIT
log=$out/confirm.log
: > "$log"
cd "$wt"
flags="-vet=off -count=1 -timeout 60m"
demoflags="$flags"
[ -n "$race" ] && demoflags="$flags -race"
# demo without the change
cp "$out/zz_seed_demo_test.go" "$wt/$pkg/zz_seed_demo_test.go"
echo "### demo on unmodified tree" >> "$log"
go test $demoflags -run 'Seed|ZZ' ./$pkg/ >> "$log" 2>&1; demo_clean=$?
rm -f "$wt/$pkg/zz_seed_demo_test.go"
# apply
if ! git apply "$out/patch.diff" >> "$log" 2>&1; then echo "$id: PATCH DOES NOT APPLY"; exit 1; fi
echo "### build with change" >> "$log"
go build ./... >> "$log" 2>&1; build=$?
echo "### full suite with change" >> "$log"
go test $flags ./... >> "$log" 2>&1; suite=$?
cp "$out/zz_seed_demo_test.go" "$wt/$pkg/zz_seed_demo_test.go"
echo "### demo with change" >> "$log"
go test $demoflags -run 'Seed|ZZ' ./$pkg/ >> "$log" 2>&1; demo_mut=$?
verdict=REJECTED
if [ $build -eq 0 ] && [ $suite -eq 0 ] && [ $demo_clean -eq 0 ] && [ $demo_mut -ne 0 ]; then verdict=CONFIRMED; fi
echo "$id property=$prop build=$build suite=$suite demo_clean=$demo_clean demo_with_change=$demo_mut => $verdict" | tee -a "$log"
echo "$verdict" > "$out/verdict.txt"
