package main

import (
	"fmt"
	"go/types"
	"strings"

	"golang.org/x/tools/go/ssa"
)

func checkC12(p *Program, r *Report) {
	r.Explanation = "Decided for every record set and query: in index.(*SlimIndex).Get and RangeGet every return is either the constant (\"\", false) taken exactly when the trie reports not-found, or the unmodified result pair of DataReader.Read(offset, key), where key is the method's own parameter and offset is the value the trie returned for that key, type-asserted to the type the index encoder produces; Get routes to (*SlimTrie).Get and RangeGet to (*SlimTrie).RangeGet; the index is built with an encoder whose Decode boxes exactly the asserted type, from the offsets of the caller's items in order. Since the trie alone has false positives, answering only through the key-verifying reader is necessary for exactness."
	r.NotCovered = "The trie's own answers for indexed keys (C01/C02) and the reader's verification (user code)."
	r.Trusted = []string{"go/ssa, go/types"}
	r.Assumptions = []string{"the DataReader verifies the record key as the interface documents"}
	r.Rule("C12.verify", "E3", "every positive answer is the reader's own result for (trie offset, query key)", 2)
	r.Rule("C12.route", "call graph", "Get -> SlimTrie.Get, RangeGet -> SlimTrie.RangeGet", 2)
	r.Rule("C12.type", "types", "offset type produced by the index encoder = type asserted on lookup", 2)
	rule := func(name string) {
		for _, ri := range r.Rules {
			if ri.Name == name {
				r.curRule = ri
			}
		}
	}
	var asserted []types.Type
	for _, m := range []string{"Get", "RangeGet"} {
		f := p.Method(p.Index, "SlimIndex", m)
		tf := p.Method(p.Trie, "SlimTrie", m)
		rule("C12.verify")
		if f == nil || tf == nil {
			r.Unk("(*index.SlimIndex)."+m, "", "anchor not found")
			continue
		}
		r.Func(shortFn(f))
		var key *ssa.Parameter
		for _, prm := range f.Params {
			if isStringType(prm.Type()) {
				key = prm
			}
		}
		// the trie lookup
		var lookup *ssa.Call
		var others []string
		for _, c := range callsIn(f) {
			call, ok := c.(*ssa.Call)
			if !ok {
				continue
			}
			if g := calleeOf(call); g != nil && inSlim(g) {
				if g == tf && len(call.Call.Args) == 2 && call.Call.Args[1] == key {
					lookup = call
				} else {
					others = append(others, shortFn(g))
				}
			}
		}
		rule("C12.route")
		r.Check(lookup != nil && len(others) == 0, "(*index.SlimIndex)."+m+" routing", p.Pos(f.Pos()), "calls (*SlimTrie)."+m+"(key) and no other library function",
			fmt.Sprintf("does not answer from (*SlimTrie).%s(key) alone (other calls: %v)", m, others))
		rule("C12.verify")
		if lookup == nil {
			r.Bad("(*index.SlimIndex)."+m+" answers through the reader", p.Pos(f.Pos()), "no lookup of the query key in the trie")
			continue
		}
		var lv, lfound ssa.Value
		for _, ref := range *lookup.Referrers() {
			if ex, ok := ref.(*ssa.Extract); ok {
				if ex.Index == 0 {
					lv = ex
				} else {
					lfound = ex
				}
			}
		}
		// the reader call
		var read *ssa.Call
		for _, c := range callsIn(f) {
			if call, ok := c.(*ssa.Call); ok && invokeIs(call, indexPath, "Read") {
				read = call
			}
		}
		var why []string
		if read == nil {
			why = append(why, "DataReader.Read is never called")
		} else {
			if len(read.Call.Args) != 2 || read.Call.Args[1] != key {
				why = append(why, "the reader is not given the query key itself")
			}
			if len(read.Call.Args) == 2 {
				ta, ok := read.Call.Args[0].(*ssa.TypeAssert)
				if !ok || ta.X != lv {
					why = append(why, "the offset given to the reader is not the value the trie returned for the key")
				} else {
					asserted = append(asserted, ta.AssertedType)
				}
			}
		}
		for _, ret := range returnsOf(f) {
			if len(ret.Results) != 2 {
				continue
			}
			r0, r1 := ret.Results[0], ret.Results[1]
			if b, ok := constBool(r1); ok && !b {
				if s, ok := constString(r0); !ok || s != "" {
					why = append(why, "a not-found return carries a non-empty value")
				}
				// must be the branch taken when the trie says not found
				okBranch := false
				for _, pred := range ret.Block().Preds {
					if iff, ok := lastInstr(pred).(*ssa.If); ok && iff.Cond == lfound && pred.Succs[1] == ret.Block() {
						okBranch = true
					}
				}
				if !okBranch {
					why = append(why, "(\"\", false) is returned on a path other than the trie's not-found branch at "+p.Pos(ret.Pos()))
				}
				continue
			}
			e0, ok0 := r0.(*ssa.Extract)
			e1, ok1 := r1.(*ssa.Extract)
			if !ok0 || !ok1 || read == nil || e0.Tuple != read || e1.Tuple != read || e0.Index != 0 || e1.Index != 1 {
				why = append(why, "the return at "+p.Pos(ret.Pos())+" may report found without being the reader's result for this key (no key verification)")
			}
		}
		r.Check(len(why) == 0, "(*index.SlimIndex)."+m+" answers through the reader", p.Pos(f.Pos()), "returns (\"\",false) on the trie's not-found branch, else DataReader.Read(offset.(T), key) unchanged", strings.Join(why, "; "))
	}

	// ---- type agreement
	rule("C12.type")
	ctor := p.Index.Func("NewSlimIndex")
	if ctor == nil {
		r.Unk("index.NewSlimIndex", "", "anchor not found")
		return
	}
	r.Func(shortFn(ctor))
	var encT types.Type
	var valuesT types.Type
	for _, c := range callsIn(ctor) {
		call, ok := c.(*ssa.Call)
		if !ok || calleeOf(call) != p.Trie.Func("NewSlimTrie") {
			continue
		}
		if mi, ok := call.Call.Args[0].(*ssa.MakeInterface); ok {
			encT = mi.X.Type()
		}
		if mi, ok := call.Call.Args[2].(*ssa.MakeInterface); ok {
			valuesT = mi.X.Type()
		}
	}
	if encT == nil {
		r.Unk("index encoder", p.Pos(ctor.Pos()), "NewSlimIndex does not pass a concrete encoder to NewSlimTrie")
		return
	}
	n, _ := encT.(*types.Named)
	var boxed types.Type
	if n != nil {
		if dec := encMethod(p, n, "Decode"); dec != nil {
			for _, ret := range returnsOf(dec) {
				if len(ret.Results) == 2 {
					if mi, ok := ret.Results[1].(*ssa.MakeInterface); ok {
						boxed = mi.X.Type()
					}
				}
			}
		}
	}
	okT := boxed != nil && len(asserted) == 2
	for _, a := range asserted {
		if boxed == nil || !types.Identical(a, boxed) {
			okT = false
		}
	}
	r.Check(okT, "offset type: encoder "+encT.String()+" vs lookup assertions", p.Pos(ctor.Pos()), "Decode boxes "+fmt.Sprint(boxed)+", which both lookups assert",
		fmt.Sprintf("the encoder's Decode boxes %v but the lookups assert %v: the first hit would panic", boxed, asserted))
	okV := false
	if sl, ok := valuesT.(*types.Slice); ok && boxed != nil {
		okV = types.Identical(sl.Elem(), boxed)
	}
	r.Check(okV, "offset slice element type", p.Pos(ctor.Pos()), "[]"+fmt.Sprint(boxed)+" is what the encoder's Encode asserts", fmt.Sprintf("values of type %v are handed to an encoder for %v", valuesT, boxed))
}

func init() { checks["C12"] = checkC12 }
