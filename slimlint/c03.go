package main

import (
	"fmt"
	"go/token"
	"strings"

	"golang.org/x/tools/go/ssa"
)

// descentLoop: the natural loop of f that contains a call of a node decoder
// (a function that stores session fields), its header and the blocks outside
// the loop that are entered from inside it.
func descentLoop(p *Program, f *ssa.Function) (header *ssa.BasicBlock, loop map[*ssa.BasicBlock]bool, exits []*ssa.BasicBlock) {
	var isDecoderD func(g *ssa.Function, d int) bool
	isDecoderD = func(g *ssa.Function, d int) bool {
		if g == nil || !trieScope(g) || len(g.Blocks) == 0 {
			return false
		}
		found := false
		instrsOf(g, func(_ *ssa.BasicBlock, in ssa.Instruction) {
			if st, ok := in.(*ssa.Store); ok {
				if _, fv, fa := fieldOfAddr(st.Addr); fa != nil && isSessionPtr(fa.X) && (fv.Name() == curSess.from) {
					found = true
				}
			}
			// a decoder may delegate the bit-range part to another decoder it hands the session to
			if c, ok := in.(*ssa.Call); ok && d < 1 && !found {
				passes := false
				for _, a := range c.Call.Args {
					if isSessionPtr(a) {
						passes = true
					}
				}
				if passes && isDecoderD(calleeOf(c), d+1) {
					found = true
				}
			}
		})
		return found
	}
	isDecoder := func(g *ssa.Function) bool {
		// the decoder is handed the session (it does not create it)
		if g == nil {
			return false
		}
		hasParam := false
		for _, prm := range g.Params {
			if isSessionPtr(prm) {
				hasParam = true
			}
		}
		return hasParam && isDecoderD(g, 0)
	}
	for _, b := range f.Blocks {
		for _, in := range b.Instrs {
			if c, ok := in.(*ssa.Call); ok && isDecoder(calleeOf(c)) {
				if h := loopHeaderOf(b); h != nil {
					header = h
				}
			}
		}
	}
	if header == nil {
		return nil, nil, nil
	}
	// natural loop of all back edges into header
	loop = map[*ssa.BasicBlock]bool{header: true}
	var stack []*ssa.BasicBlock
	for _, pr := range header.Preds {
		if header.Dominates(pr) && !loop[pr] {
			loop[pr] = true
			stack = append(stack, pr)
		}
	}
	for len(stack) > 0 {
		b := stack[len(stack)-1]
		stack = stack[:len(stack)-1]
		for _, pr := range b.Preds {
			if !loop[pr] {
				loop[pr] = true
				stack = append(stack, pr)
			}
		}
	}
	seen := map[*ssa.BasicBlock]bool{}
	for b := range loop {
		for _, s := range b.Succs {
			if !loop[s] && !seen[s] {
				seen[s] = true
				exits = append(exits, s)
			}
		}
	}
	return header, loop, exits
}

// isNotFoundReturn: the (first) result is the constant -1.
func isNotFoundReturn(ret *ssa.Return) bool {
	if len(ret.Results) == 0 {
		return false
	}
	k, ok := constInt(ret.Results[0])
	return ok && k == -1
}

func checkC03(p *Program, r *Report) {
	r.Explanation = "Decided necessary conditions of \"no false positives in Complete mode\" for the exact-match descent, for every trie and query: (complete) Complete forces both prefix kinds to be stored (the option normalisation rule of C13); (inner-reject) every branch of the descent that depends on a comparison involving the node's stored prefix has exactly one side from which no found answer is reachable — a mismatch cannot be ignored; (tail-reject) on the loop-free tail after the descent loop a found answer is given only when the trie stores no leaf tails at all, or the key ended exactly at a leaf without tail, or the equality of the stored tail with the rest of the key held; (session) the stored prefix and tail are read only under their validity discriminators (the typestate rule of C10)."
	r.NotCovered = "That the comparisons themselves are right for every byte string (bitstr.StrCmpUpto, cursor arithmetic: seed C13_c is an off-by-one in such a comparison and is not detected), the three-way descent of RangeGet/Search and its neighbour bookkeeping, ordering. These depend on rank values and key bytes at run time."
	r.Trusted = []string{"go/ssa", "openacid/low/bitstr, bytes (comparison functions by contract)"}
	checkOptNormalisationAs(p, r, "C03.complete")

	getID := p.Method(p.Trie, "SlimTrie", "GetID")
	r.Rule("C03.inner-reject", "CFG", "a mismatch of the stored inner prefix cannot be ignored", 1)
	r.Rule("C03.tail-reject", "E11", "a found answer requires the leaf tail comparison", 1)
	setRule := func(name string) {
		for _, ri := range r.Rules {
			if ri.Name == name {
				r.curRule = ri
			}
		}
	}
	if getID == nil {
		setRule("C03.inner-reject")
		r.Unk("(*trie.SlimTrie).GetID", "", "anchor not found")
		return
	}
	// the function that holds the descent loop: GetID or the helper it delegates to
	F := getID
	header, loop, exits := descentLoop(p, F)
	if header == nil {
		for _, c := range callsIn(getID) {
			if g := calleeOf(c); g != nil && trieScope(g) && len(g.Blocks) > 0 {
				if h, l, e := descentLoop(p, g); h != nil {
					F, header, loop, exits = g, h, l, e
				}
			}
		}
	}
	if header == nil {
		setRule("C03.inner-reject")
		r.Unk("exact-match descent loop", p.Pos(getID.Pos()), "no loop under GetID decodes nodes into a session (anchor not found)")
		return
	}
	r.Func(shortFn(F))
	foundReach := func(from *ssa.BasicBlock) bool {
		for b := range reachableFrom(from, nil) {
			if ret, ok := lastInstr(b).(*ssa.Return); ok && !isNotFoundReturn(ret) {
				return true
			}
		}
		return false
	}
	// ---- inner-reject
	setRule("C03.inner-reject")
	n := 0
	for b := range loop {
		iff, ok := lastInstr(b).(*ssa.If)
		if !ok || !dependsOnSessionField(iff.Cond, "innerPrefix", 0) {
			continue
		}
		n++
		// a three-way result must be tested for (in)equality with 0: "> 0" rejects one direction only
		if bo, ok := iff.Cond.(*ssa.BinOp); ok {
			_, kx := constInt(bo.X)
			_, ky := constInt(bo.Y)
			if (kx || ky) && bo.Op != token.EQL && bo.Op != token.NEQ {
				r.Bad(fmt.Sprintf("prefix comparison #%d in %s", n, shortFn(F)), p.Pos(iff.Cond.Pos()), "the three-way result of the stored-prefix comparison is tested with "+bo.Op.String()+", so a query that differs from the prefix in the other direction is not rejected")
				continue
			}
		}
		a, c := foundReach(b.Succs[0]), foundReach(b.Succs[1])
		// inside the loop both sides can normally reach a found return through the back edge; the
		// mismatch side must leave the descent for good
		r.Check(a != c, fmt.Sprintf("prefix comparison #%d in %s", n, shortFn(F)), p.Pos(iff.Cond.Pos()), "one side of the branch reaches no found answer",
			"both sides of the branch on the stored-prefix comparison can still reach a found answer: a query that disagrees with the stored prefix is not rejected")
	}
	if n == 0 {
		r.Unk("prefix comparison in "+shortFn(F), p.Pos(F.Pos()), "the descent loop has no branch that depends on the session's stored inner prefix")
	}
	// ---- tail-reject
	setRule("C03.tail-reject")
	key := keyParamOf(getID)
	bind := map[ssa.Value]*term{}
	if len(F.Params) > 0 {
		bind[F.Params[0]] = S("ST")
	}
	if k2 := keyParamOf(F); k2 != nil {
		bind[k2] = S("KEY")
	}
	nTail := 0
	// the rest of the key: the key parameter or the session's copy of it (sessions are created with
	// key = the query, C10.keyindex)
	ofKey := func(c string) bool {
		return strings.Contains(c, "KEY") || strings.Contains(c, ".key,") || strings.Contains(c, ".key)")
	}
	judge := func(ps []fpath, construct, pos string) {
		var bad []string
		nFound := 0
		for _, fp := range ps {
			if fp.panics || len(fp.results) != 1 || fp.results[0].String() == "-1" {
				continue
			}
			nFound++
			noTails, ended, noTail, equal := false, false, false, false
			for _, c := range fp.pc {
				isCmpCall := strings.HasPrefix(c, "call:bytes.") || strings.HasPrefix(c, "!call:bytes.") || strings.Contains(c, "call:bytes.Compare(")
				switch {
				case strings.Contains(c, "LeafPrefixes") && (strings.Contains(c, "== nil") || strings.Contains(c, "(nil == ")):
					noTails = true
				case strings.HasPrefix(c, "!") && strings.HasSuffix(c, ".hasLeafPrefix"):
					noTail = true
				case !isCmpCall && strings.Contains(c, " == ") && (strings.Contains(c, "len(KEY)") || strings.Contains(c, ".keyBitLen")):
					ended = true
				case strings.HasPrefix(c, "call:bytes.Equal(") && strings.Contains(c, "leafPrefix") && ofKey(c):
					equal = true
				case strings.HasPrefix(c, "(0 == call:bytes.Compare(") && strings.Contains(c, "leafPrefix") && ofKey(c):
					equal = true
				case !isCmpCall && strings.Contains(c, " == ") && !strings.Contains(c, " != ") && strings.Contains(c, "leafPrefix") && strings.Contains(c, "string(") && ofKey(c):
					// string(stored tail) == rest of the key
					equal = true
				}
			}
			if !(noTails || (ended && noTail) || equal) {
				bad = append(bad, "a found answer is given on the path ["+abbreviate(fp.pcKey())+"] although leaf tails are stored and neither the key ended at a leaf without tail nor the tail was compared equal with the rest of the key")
			}
		}
		if nFound == 0 {
			bad = append(bad, "no found answer on this tail")
		}
		r.Check(len(bad) == 0, construct, pos, fmt.Sprintf("%d found path(s), each licensed by: no leaf tails stored | key ended and leaf has no tail | stored tail equals the rest of the key", nFound), strings.Join(dedupStrings(sortStr(bad)), "; "))
	}
	if F != getID {
		// the loop lives in a helper: the tail is the (loop-free) caller, with the helper kept opaque
		nTail++
		gb := map[ssa.Value]*term{getID.Params[0]: S("ST")}
		if key != nil {
			gb[key] = S("KEY")
		}
		ps, why := flatten(p, getID, gb, func(g *ssa.Function) bool { return trieScope(g) && g != F })
		construct := "tail of " + shortFn(getID) + " after the descent in " + shortFn(F)
		if why != "" {
			r.Unk(construct, p.Pos(getID.Pos()), "cannot summarise: "+why)
		} else {
			judge(ps, construct, p.Pos(getID.Pos()))
		}
	} else {
		for _, ex := range exits {
			if !foundReach(ex) {
				continue
			}
			nTail++
			ps, why := flattenFrom(p, F, ex, bind, trieScope)
			construct := fmt.Sprintf("tail #%d after the descent loop of %s", nTail, shortFn(F))
			if why != "" {
				r.Unk(construct, p.Pos(F.Pos()), "cannot summarise: "+why)
				continue
			}
			judge(ps, construct, p.Pos(ex.Instrs[0].Pos()))
		}
	}
	if nTail == 0 {
		r.Unk("tail after the descent loop of "+shortFn(F), p.Pos(F.Pos()), "no loop exit reaches a found answer")
	}
	// ---- session typestate for the stored prefix and tail
	checkSessionTypestate(p, r, "C03.session-valid")
	// ---- every byte value 0x00-0xff of the query is addressable as a label (shared with C01): a byte
	// that wraps to the end-of-key slot makes K+"\xff" a false positive
	checkLabelRangeAs(p, r, "C03.labelrange")
	// ---- "and then return its value" (shared with C01): the value array layout is decided per element;
	// a node is decoded with the size it was built with
	checkVLenWidth(p, r, "C03.vlen-width")
	checkBigZone(p, r, "C03.bigzone")
	// ---- exactness is a property of the loaded data: everything GetID reads from the instance is
	// replaced by every successful load (shared with C18/C19)
	checkFreshFor(p, r, "C03.fresh", getID, "GetID", 1)
	// ---- keys are bytes (shared with C10): exactness for arbitrary query strings includes bytes >= 0x80
	checkNoRuneWalk(p, r, "C03.bytes-not-runes", p.Method(p.Trie, "SlimTrie", "Get"), getID, p.Method(p.Trie, "SlimTrie", "RangeGet"), p.Method(p.Trie, "SlimTrie", "Search"), p.Trie.Func("NewSlimTrie"))
	r.Explanation += " (align) wherever the position at which the builder cuts labels (bmtree.PathsOf/PathOf) is aligned by a constant mask, the mask clears at least log2(w) low bits for every label word size w that can reach the same call together with it (leaves of position and word size paired per phi edge and helper return): a 257-bit node is cut at whole bytes, as the readers address it."
	checkCutAlignment(p, r, "C03.align")
	checkCodecsAs(p, r, "C03")
	checkCapacity(p, r, "C03.capacity")
}

// dependsOnSessionField: v is computed (within a few steps) from a load of the given session field.
func dependsOnSessionField(v ssa.Value, field string, d int) bool {
	if v == nil || d > 6 {
		return false
	}
	switch x := v.(type) {
	case *ssa.UnOp:
		if _, fv, fa := fieldOfAddr(x.X); fa != nil && fv.Name() == field && isSessionPtr(fa.X) {
			return true
		}
		return dependsOnSessionField(x.X, field, d+1)
	case *ssa.BinOp:
		return dependsOnSessionField(x.X, field, d+1) || dependsOnSessionField(x.Y, field, d+1)
	case *ssa.Call:
		for _, a := range x.Call.Args {
			if dependsOnSessionField(a, field, d+1) {
				return true
			}
		}
		// a helper that is handed the session and reads the field itself
		if g := calleeOf(x); g != nil && trieScope(g) && len(g.Blocks) > 0 {
			passes := false
			for _, a := range x.Call.Args {
				if isSessionPtr(a) {
					passes = true
				}
			}
			if passes {
				reads := false
				instrsOf(g, func(_ *ssa.BasicBlock, in ssa.Instruction) {
					if ld, ok := in.(*ssa.UnOp); ok {
						if _, fv, fa := fieldOfAddr(ld.X); fa != nil && fv.Name() == field && isSessionPtr(fa.X) {
							reads = true
						}
					}
				})
				if reads {
					return true
				}
			}
		}
	case *ssa.Convert:
		return dependsOnSessionField(x.X, field, d+1)
	case *ssa.Slice:
		return dependsOnSessionField(x.X, field, d+1)
	case *ssa.Extract:
		// result #k of a helper that is handed the session: only if that result is computed from the field
		// ("i, r = qr.skipInnerPrefix(i)": r is the comparison with the stored prefix, i is not)
		if call, ok := x.Tuple.(*ssa.Call); ok {
			if g := calleeOf(call); g != nil && trieScope(g) && len(g.Blocks) > 0 {
				passes := false
				for _, a := range call.Call.Args {
					if isSessionPtr(a) {
						passes = true
					}
				}
				if passes {
					for _, ret := range returnsOf(g) {
						if x.Index < len(ret.Results) && dependsOnSessionField(ret.Results[x.Index], field, d+1) {
							return true
						}
					}
					for _, a := range call.Call.Args {
						if dependsOnSessionField(a, field, d+1) {
							return true
						}
					}
					return false
				}
			}
		}
		return dependsOnSessionField(x.Tuple, field, d+1)
	case *ssa.Phi:
		for _, e := range x.Edges {
			if dependsOnSessionField(e, field, d+1) {
				return true
			}
		}
	}
	return false
}

func init() { checks["C03"] = checkC03 }

func init() {
	controlFns["C03"] = func(fx *Program, r *Report) { controlNoRuneWalk(fx, r, "C03.bytes-not-runes") }
}
