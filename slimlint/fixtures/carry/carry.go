// Package carry is a positive control for the lost-carry rule: arithmetic on
// one byte of a little-endian uint16 before the bytes are put together again
// wraps without borrowing from the other byte.
package carry

import "encoding/binary"

// StepWrong is off by 256 whenever bs[0] == 0.
func StepWrong(bs []byte) int32 {
	lo, hi := bs[0], bs[1]
	lo--
	return (int32(hi)<<8 | int32(lo)) << 2
}

// StepRight recombines first.
func StepRight(bs []byte) int32 {
	lo, hi := bs[0], bs[1]
	v := uint16(hi)<<8 | uint16(lo)
	v--
	return int32(v) << 2
}

// StepLibrary reads through encoding/binary.
func StepLibrary(bs []byte) int32 {
	v := binary.LittleEndian.Uint16(bs)
	v--
	return int32(v) * 4
}
